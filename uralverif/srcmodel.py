"""E0 -- source model and constant evaluator.

Parses every module of <repo>/ural on each run (no import, no execution of
ural code).  Provides

* ``Repo``: modules by dotted name, symbol resolution through ``from x import
  y as z`` chains;
* ``Repo.const(mod, name)`` / ``Repo.ceval(mod, expr)``: a constant evaluator
  over module-level expressions (literals, displays, ``set([...])``, ``+ % *``,
  ``.encode()``, ``re.compile`` -> ``Regex``, ``functools.partial`` ->
  ``Partial``, lambdas -> ``Lambda``, comprehensions over constants with a
  whitelist of pure builtins);
* helpers to fetch functions / methods as AST.

Anything that cannot be folded raises ``Unknown``; a vanished anchor raises
``AnchorError`` (mapped to exit 2, ANALYSIS-ERROR, by the driver).
"""
import ast
import hashlib
import os
import re as _re


_PINNED = None


def _pinned_anchors():
    global _PINNED
    if _PINNED is None:
        import json
        path = os.path.join(os.path.dirname(os.path.dirname(os.path.abspath(__file__))), "spec", "anchors.json")
        with open(path) as f:
            _PINNED = frozenset(json.load(f)["anchors"])
    return _PINNED


import string as _string
_STDLIB_CONSTANTS = dict((("string", n), getattr(_string, n)) for n in ("ascii_letters", "ascii_lowercase", "ascii_uppercase", "digits", "hexdigits", "octdigits", "punctuation", "whitespace", "printable"))


class AnalysisError(Exception):
    """Checker cannot decide: anchor vanished / unknown idiom in a fail-closed rule."""


class AnchorError(AnalysisError):
    pass


class Unknown(Exception):
    """Expression is not a foldable constant."""


class Regex(object):
    __slots__ = ("pattern", "flags", "node", "module")

    def __init__(self, pattern, flags, node=None, module=None):
        self.pattern = pattern
        self.flags = flags
        self.node = node
        self.module = module

    @property
    def is_bytes(self):
        return isinstance(self.pattern, bytes)

    def __repr__(self):
        return "Regex(%r, %d)" % (self.pattern, self.flags)

    def __eq__(self, other):
        return (
            isinstance(other, Regex)
            and other.pattern == self.pattern
            and other.flags == self.flags
        )

    def __hash__(self):
        return hash((self.pattern, self.flags))


class Partial(object):
    __slots__ = ("func", "args", "kwargs", "module")

    def __init__(self, func, args, kwargs, module):
        self.func = func  # FuncRef
        self.args = args
        self.kwargs = kwargs
        self.module = module

    def __repr__(self):
        return "Partial(%r, %r)" % (self.func, self.kwargs)


class Sentinel(object):
    """value of a module-level `object()` (identity is all that matters)"""

    def __init__(self, where):
        self.where = where

    def __repr__(self):
        return "<sentinel %s>" % self.where


class FuncRef(object):
    """Reference to a def/class/lambda, or an external (non-ural) callable by dotted name."""

    __slots__ = ("module", "node", "qualname")

    def __init__(self, module, node, qualname):
        self.module = module
        self.node = node
        self.qualname = qualname

    def __repr__(self):
        return "FuncRef(%s)" % self.qualname

    def __eq__(self, other):
        return isinstance(other, FuncRef) and other.qualname == self.qualname

    def __hash__(self):
        return hash(self.qualname)


RE_FLAGS = {
    "I": _re.I,
    "IGNORECASE": _re.I,
    "U": _re.U,
    "UNICODE": _re.U,
    "M": _re.M,
    "MULTILINE": _re.M,
    "S": _re.S,
    "DOTALL": _re.S,
    "X": _re.X,
    "VERBOSE": _re.X,
    "A": _re.A,
    "ASCII": _re.A,
}

PURE_BUILTINS = {
    "int": int,
    "chr": chr,
    "str": str,
    "len": len,
    "set": set,
    "frozenset": frozenset,
    "tuple": tuple,
    "list": list,
    "sorted": sorted,
    "dict": dict,
    "bytes": bytes,
    "ord": ord,
    "range": range,
    "hex": hex,
    "bytearray": bytearray,
}


class Module(object):
    def __init__(self, repo, name, path):
        self.repo = repo
        self.name = name
        self.path = path
        with open(path, "rb") as f:
            raw = f.read()
        self.digest = hashlib.sha256(raw).hexdigest()
        self.src = raw.decode("utf-8")
        self.tree = ast.parse(self.src, filename=path)
        from .desugar import desugar
        self.tree = desugar(self.tree)  # match / with suppress / singledispatch read as the plain statements they stand for
        # name -> list of binding records in program order
        # record: ("assign", value_node) | ("def", node) | ("class", node) |
        #         ("import", module_name, orig_name) | ("importmod", module_name)
        self.bindings = {}
        self.toplevel_loops = []  # For nodes at module level (trie feeders)
        self._collect(self.tree.body)

    @property
    def relpath(self):
        return os.path.relpath(self.path, self.repo.root)

    def _bind(self, name, rec):
        self.bindings.setdefault(name, []).append(rec)
        self._seq = getattr(self, "_seq", 0) + 1
        self._order = getattr(self, "_order", {})
        self._order[id(rec)] = self._seq

    def binding_before(self, name, rec):
        """the binding of `name` in force when the module-level statement of `rec` runs (`_f = f` followed by
        `def f` keeps the earlier f); the last binding when none precedes it"""
        recs = self.bindings.get(name)
        if not recs:
            return None
        here = self._order.get(id(rec))
        if here is not None:
            earlier = [r for r in recs if self._order.get(id(r), 0) < here]
            if earlier:
                return earlier[-1]
        return recs[-1]

    def _collect(self, body):
        for st in body:
            if isinstance(st, ast.Assign):
                for tgt in st.targets:
                    if isinstance(tgt, ast.Name):
                        self._bind(tgt.id, ("assign", st.value, st))
                    elif isinstance(tgt, (ast.Tuple, ast.List)):
                        for i, e in enumerate(tgt.elts):
                            if isinstance(e, ast.Name):
                                self._bind(e.id, ("unpack", st.value, i, st))
            elif isinstance(st, ast.AnnAssign) and st.value is not None:
                if isinstance(st.target, ast.Name):
                    self._bind(st.target.id, ("assign", st.value, st))
            elif isinstance(st, (ast.FunctionDef, ast.AsyncFunctionDef)):
                self._bind(st.name, ("def", st))
            elif isinstance(st, ast.ClassDef):
                self._bind(st.name, ("class", st))
            elif isinstance(st, ast.ImportFrom):
                if st.module == "__future__":
                    continue
                for a in st.names:
                    self._bind(a.asname or a.name, ("import", st.module, a.name))
            elif isinstance(st, ast.Import):
                for a in st.names:
                    if a.asname:
                        self._bind(a.asname, ("importmod", a.name))
                    else:
                        self._bind(a.name.split(".")[0], ("importmod", a.name.split(".")[0]))
            elif isinstance(st, ast.If):
                # fold PY2 / version tests: take the arm a Python-3 run takes
                arm = self._fold_toplevel_if(st)
                if arm is None:
                    self._collect(st.body)
                    self._collect(st.orelse)
                else:
                    self._collect(arm)
            elif isinstance(st, ast.Try):
                # try: <py3 import> except ImportError/NameError: <py2 fallback>
                names = set()
                for h in st.handlers:
                    if isinstance(h.type, ast.Name):
                        names.add(h.type.id)
                if names and names <= {"ImportError", "NameError"}:
                    if names == {"NameError"}:
                        # `string_type = basestring` raises on py3: body has no effect
                        continue
                    self._collect(st.body)
                else:
                    self._collect(st.body)
                    for h in st.handlers:
                        self._collect(h.body)
                    self._collect(st.orelse)
                    self._collect(st.finalbody)
            elif isinstance(st, ast.For):
                self.toplevel_loops.append(st)

    def _fold_toplevel_if(self, st):
        try:
            v = self.repo.ceval(self, st.test)
        except Unknown:
            return None
        return st.body if v else st.orelse

    def last_binding(self, name):
        recs = self.bindings.get(name)
        if not recs:
            return None
        return recs[-1]

    def func(self, name):
        """FunctionDef node for a top-level function of this module (follows imports)."""
        ref = self.repo.resolve(self, name)
        if ref is None or not isinstance(ref.node, (ast.FunctionDef, ast.Lambda)):
            raise AnchorError("function %s.%s not found" % (self.name, name))
        return ref

    def klass(self, name):
        rec = self.last_binding(name)
        if rec is not None and rec[0] == "import":
            site = self.repo.def_site(self, name)
            if site is not None:
                rec = self.repo.mod(site[0]).last_binding(site[1])
        if rec is None or rec[0] != "class":
            raise AnchorError("class %s.%s not found" % (self.name, name))
        return rec[1]

    def method(self, cls, name):
        c = self.klass(cls)
        for st in c.body:
            if isinstance(st, ast.FunctionDef) and st.name == name:
                return st
        raise AnchorError("method %s.%s.%s not found" % (self.name, cls, name))

    def site(self, node):
        return "%s:%d" % (self.relpath, getattr(node, "lineno", 0))


class Repo(object):
    def __init__(self, root=None, package="ural"):
        self.root = os.path.abspath(root or os.environ.get("URAL_REPO", "/repo"))
        self.package = package
        self.modules = {}
        self._const_cache = {}
        self._evaluating = set()
        pkgdir = os.path.join(self.root, package)
        if not os.path.isdir(pkgdir):
            raise AnchorError("package directory %s not found" % pkgdir)
        paths = []
        for dirpath, dirnames, filenames in os.walk(pkgdir):
            dirnames[:] = [d for d in dirnames if d != "__pycache__"]
            for fn in sorted(filenames):
                if fn.endswith(".py"):
                    paths.append(os.path.join(dirpath, fn))
        self._paths = {}
        for p in paths:
            rel = os.path.relpath(p, self.root)[:-3].replace(os.sep, ".")
            if rel.endswith(".__init__"):
                rel = rel[: -len(".__init__")]
            self._paths[rel] = p
        self.consulted = set()
        self._aliases = None
        self._quiet = 0

    # ------------------------------------------------------------------
    # pinned anchor names
    # ------------------------------------------------------------------
    def def_site(self, module, name, _depth=0):
        """(module name, name) of the definition a module-level name leads to through
        package-internal imports and `X = Y` aliases; None for externals / unbound."""
        if _depth > 12:
            return None
        rec = module.last_binding(name)
        if rec is None:
            return None
        if rec[0] == "import":
            src, orig = rec[1], rec[2]
            if src is not None and src in self._paths:
                target = self.mod(src)
                if orig in target.bindings:
                    return self.def_site(target, orig, _depth + 1)
            return None
        if rec[0] == "assign" and isinstance(rec[1], ast.Name) and rec[1].id in module.bindings and rec[1].id != name:
            return self.def_site(module, rec[1].id, _depth + 1)
        if rec[0] in ("def", "class", "assign", "unpack"):
            return (module.name, name)
        return None

    def _pinned_aliases(self):
        if self._aliases is None:
            self._aliases = {}
            pinned = _pinned_anchors()
            self._pinned = pinned
            self._quiet += 1
            try:
                for a in sorted(pinned):
                    mname, _, n = a.rpartition(".")
                    if mname not in self._paths:
                        continue
                    try:
                        m = self.mod(mname)
                        rec = m.last_binding(n)
                        if rec is None or not (rec[0] == "import" or (rec[0] == "assign" and isinstance(rec[1], ast.Name))):
                            continue  # only a definition that moved away and is imported back (directly, or under its old name through an alias)
                        site = self.def_site(m, n)
                    except AnalysisError:
                        continue
                    if site is not None and "%s.%s" % site != a and "%s.%s" % site not in pinned:
                        self._aliases.setdefault(site, a)
            finally:
                self._quiet -= 1
        return self._aliases

    def canon(self, module, name):
        """Qualified name under which the rules know the definition behind module.name:
        its definition site, or -- when that site did not exist at the reviewed commit --
        the pinned anchor that still leads to it (a definition moved and imported back)."""
        if isinstance(module, str):
            module = self.mod(module)
        site = self.def_site(module, name)
        if site is None:
            return "%s.%s" % (module.name, name)
        q = "%s.%s" % site
        if q in _pinned_anchors():
            return q
        return self._pinned_aliases().get(site, q)

    def mod(self, name):
        if not name.startswith(self.package):
            name = self.package + "." + name
        m = self.modules.get(name)
        if m is None:
            p = self._paths.get(name)
            if p is None:
                raise AnchorError("module %s not found under %s" % (name, self.root))
            try:
                m = Module(self, name, p)
            except SyntaxError as e:
                raise AnchorError("module %s does not parse: %s" % (name, e))
            self.modules[name] = m
        if not self._quiet:
            self.consulted.add(name)
        return m

    def has_mod(self, name):
        if not name.startswith(self.package):
            name = self.package + "." + name
        return name in self._paths

    def all_module_names(self):
        return sorted(self._paths)

    def digest(self):
        h = hashlib.sha256()
        for n in sorted(self.consulted):
            h.update(n.encode())
            h.update(self.modules[n].digest.encode())
        return h.hexdigest()[:16]

    # ------------------------------------------------------------------
    # symbol resolution
    # ------------------------------------------------------------------
    def resolve(self, module, name, _depth=0, _rec=None):
        """Resolve a top-level name to FuncRef(def/class/lambda) or an external dotted name.

        Returns FuncRef for functions/classes (ural-internal) or FuncRef(module=None,
        node=None, qualname='urllib.parse.quote') for externals; None if unbound.
        Names bound to constants resolve to FuncRef only when the constant is a
        Partial/Lambda; use const() for values.
        """
        if _depth > 12:
            return None
        rec = _rec if _rec is not None else module.last_binding(name)
        if rec is None:
            return None
        kind = rec[0]
        if kind == "def" or kind == "class":
            return FuncRef(module, rec[1], self.canon(module, name))
        if kind == "import":
            src, orig = rec[1], rec[2]
            if src is not None and (src == self.package or src.startswith(self.package + ".")):
                if src in self._paths:
                    target = self.mod(src)
                    if orig in target.bindings:
                        return self.resolve(target, orig, _depth + 1)
                    # maybe submodule import
                    sub = src + "." + orig
                    if sub in self._paths:
                        return FuncRef(self.mod(sub), None, sub)
                return None
            return FuncRef(None, None, "%s.%s" % (src, orig))
        if kind == "importmod":
            mname = rec[1]
            if mname in self._paths:
                return FuncRef(self.mod(mname), None, mname)
            return FuncRef(None, None, mname)
        if kind == "assign":
            val = rec[1]
            if isinstance(val, ast.Name):
                return self.resolve(module, val.id, _depth + 1, _rec=module.binding_before(val.id, rec))
            if isinstance(val, ast.Lambda):
                return FuncRef(module, val, self.canon(module, name))
            if isinstance(val, ast.Attribute):
                dn = self.dotted(module, val)
                if dn:
                    return FuncRef(None, None, dn)
                if isinstance(val.value, ast.Name) and val.value.id in module.bindings and val.attr in ("match", "search", "fullmatch", "sub", "subn", "split", "findall", "finditer"):
                    # `match_x = X_RE.match` with X_RE defined in this module: the name stands for the pattern's method
                    return FuncRef(None, None, "%s.%s" % (self.canon(module, val.value.id), val.attr))
            return FuncRef(module, val, self.canon(module, name))
        return None

    def dotted(self, module, node):
        """Dotted external name of an attribute chain rooted at an imported module."""
        parts = []
        cur = node
        while isinstance(cur, ast.Attribute):
            parts.append(cur.attr)
            cur = cur.value
        if not isinstance(cur, ast.Name):
            return None
        rec = module.last_binding(cur.id)
        if rec is None:
            return None
        if rec[0] == "importmod":
            base = rec[1]
        elif rec[0] == "import":
            base = "%s.%s" % (rec[1], rec[2])
            if base in self._paths and not (rec[1] in self._paths and rec[2] in self.mod(rec[1]).bindings):
                # `from ural import utils`: a sub-module; utils.f / utils.CONST.m name the sub-module's own definitions
                parts = list(reversed(parts))
                if parts:
                    sub = self.mod(base)
                    if parts[0] in sub.bindings:
                        return ".".join([self.canon(sub, parts[0])] + parts[1:])
                return ".".join([base] + parts)
            if rec[1] in self._paths:
                base = self.canon(module, cur.id)
        else:
            return None
        return ".".join([base] + list(reversed(parts)))

    def resolve_call(self, module, func_node, local_names=()):
        """Qualified name of a call's callee: 'ural.quote.safely_quote', 're.sub',
        'urllib.parse.urlsplit', or None (method call on a value / unknown)."""
        if isinstance(func_node, ast.Name):
            if func_node.id in local_names:
                return None
            ref = self.resolve(module, func_node.id)
            if ref is None:
                if func_node.id in PURE_BUILTINS or func_node.id in (
                    "isinstance", "bool", "next", "reversed", "range", "callable",
                    "iter", "getattr", "max", "min", "all", "any", "enumerate", "zip",
                    "filter", "map", "sum", "repr", "type",
                ):
                    return "builtins." + func_node.id
                return None
            return ref.qualname
        if isinstance(func_node, ast.Attribute):
            dn = self.dotted(module, func_node)
            return dn
        return None

    # ------------------------------------------------------------------
    # constant evaluation
    # ------------------------------------------------------------------
    _MUTATORS = ("update", "add", "append", "extend", "setdefault", "insert", "pop", "remove", "discard", "clear", "popitem", "sort", "reverse")

    def _filled(self, module, name, value_node, val):
        """a module-level container as the module's own top-level statements leave it: the statements after its binding that
        mutate it (TABLE[k] = v in a loop, TABLE.update(...), TABLE += ...) are interpreted on the value, in program order;
        an `if` whose test folds (PY2) contributes the branch taken"""
        def mutates(st):
            for x in ast.walk(st):
                if isinstance(x, (ast.FunctionDef, ast.Lambda, ast.ClassDef)):
                    continue
                if isinstance(x, ast.Subscript) and isinstance(x.ctx, (ast.Store, ast.Del)) and isinstance(x.value, ast.Name) and x.value.id == name:
                    return True
                if isinstance(x, ast.AugAssign) and isinstance(x.target, ast.Name) and x.target.id == name:
                    return True
                if isinstance(x, ast.Call) and isinstance(x.func, ast.Attribute) and x.func.attr in self._MUTATORS and isinstance(x.func.value, ast.Name) and x.func.value.id == name:
                    return True
            return False

        def in_order(body):
            for st in body:
                if isinstance(st, ast.If):
                    try:
                        taken = st.body if self.ceval(module, st.test) else st.orelse
                    except Unknown:
                        yield st
                        continue
                    for x in in_order(taken):
                        yield x
                else:
                    yield st
        after = False
        todo = []
        for st in in_order(module.tree.body):
            if isinstance(st, (ast.Assign, ast.AnnAssign)) and getattr(st, "value", None) is value_node:
                after = True
                todo = []
                continue
            if after and not isinstance(st, (ast.FunctionDef, ast.ClassDef, ast.Import, ast.ImportFrom)) and mutates(st):
                todo.append(st)
        if not todo:
            return val
        from .microeval import _Interp, Raised
        for st in todo:
            try:
                _Interp(self, module, {name: val}, 0).stmt(st)
            except Raised as e:
                raise Unknown("module-level statement filling %s.%s raises %s" % (module.name, name, e.name))
        return val

    def const(self, module, name):
        if isinstance(module, str):
            module = self.mod(module)
        key = (module.name, name)
        if key in self._const_cache:
            return self._const_cache[key]
        if key in self._evaluating:
            raise Unknown("cyclic constant %s.%s" % key)
        self._evaluating.add(key)
        try:
            rec = module.last_binding(name)
            if rec is None:
                raise AnchorError("constant %s.%s not found" % key)
            kind = rec[0]
            if kind == "assign":
                try:
                    val = self._fold(module, rec[1])
                except Unknown as first:
                    # the constant folder knows literals, a few builtins and regex compilation; whatever else a module-level
                    # constant is built with (map / product / chain / frozenset of a generator ...) is read by the interpreter
                    try:
                        from .microeval import _Interp
                        val = _Interp(self, module, {}, 0).expr(rec[1])
                    except Unknown:
                        raise first
                    except RecursionError:
                        raise first
                if isinstance(val, (dict, list, set)):
                    val = self._filled(module, name, rec[1], val)
            elif kind == "unpack":
                try:
                    val = self._fold(module, rec[1])[rec[2]]
                except Unknown as first:
                    try:
                        from .microeval import _Interp
                        it = _Interp(self, module, {}, 0)
                        val = list(it.iterate(it.expr(rec[1])))[rec[2]]
                    except (Unknown, RecursionError, IndexError, TypeError):
                        raise first
            elif kind == "import":
                src, orig = rec[1], rec[2]
                if src in self._paths and orig not in self.mod(src).bindings and "%s.%s" % (src, orig) in self._paths:
                    val = FuncRef(self.mod("%s.%s" % (src, orig)), None, "%s.%s" % (src, orig))
                elif src in self._paths:
                    val = self.const(self.mod(src), orig)
                elif (src, orig) in _STDLIB_CONSTANTS:
                    val = _STDLIB_CONSTANTS[(src, orig)]
                else:
                    raise Unknown("external %s.%s" % (src, orig))
            elif kind in ("def", "class"):
                val = FuncRef(module, rec[1], self.canon(module, name))
            else:
                raise Unknown("not a constant: %s.%s" % key)
        finally:
            self._evaluating.discard(key)
        self._const_cache[key] = val
        return val

    def _fold(self, module, node):
        """constant folding of a module-level initialiser: the small evaluator first, the finite-domain
        interpreter (comprehensions over itertools, helper calls, ...) when it does not know the construct"""
        try:
            return self.ceval(module, node)
        except Unknown as first:
            from .microeval import _Interp
            try:
                v = _Interp(self, module, {}, 0).expr(node)
            except Unknown:
                raise first
            except RecursionError:
                raise first
            return v

    def const_node(self, module, name):
        """The AST node of the (last) assignment binding a module-level name."""
        if isinstance(module, str):
            module = self.mod(module)
        rec = module.last_binding(name)
        if rec is None:
            raise AnchorError("constant %s.%s not found" % (module.name, name))
        if rec[0] == "import" and rec[1] in self._paths:
            return self.const_node(self.mod(rec[1]), rec[2])
        return rec[1]

    def ceval(self, module, node, env=None):
        env = env or {}
        ev = lambda n: self.ceval(module, n, env)
        if isinstance(node, ast.Constant):
            return node.value
        if isinstance(node, ast.Name):
            if node.id in env:
                return env[node.id]
            if node.id == "PY2":
                return False
            if node.id in ("True", "False", "None"):
                return {"True": True, "False": False, "None": None}[node.id]
            if node.id in module.bindings:
                return self.const(module, node.id)
            raise Unknown("unbound name %s" % node.id)
        if isinstance(node, ast.Tuple):
            return tuple(ev(e) for e in node.elts)
        if isinstance(node, ast.List):
            return [ev(e) for e in node.elts]
        if isinstance(node, ast.Set):
            return set(ev(e) for e in node.elts)
        if isinstance(node, ast.Dict):
            return dict((ev(k), ev(v)) for k, v in zip(node.keys, node.values))
        if isinstance(node, ast.Lambda):
            return FuncRef(module, node, "%s.<lambda@%d>" % (module.name, node.lineno))
        if isinstance(node, ast.JoinedStr):
            out = []
            for v in node.values:
                if isinstance(v, ast.Constant):
                    out.append(v.value)
                elif isinstance(v, ast.FormattedValue):
                    val = ev(v.value)
                    if not isinstance(val, (str, bytes, int, float, bool, type(None), tuple, list)):
                        raise Unknown("f-string of a %s" % type(val).__name__)
                    if v.conversion in (115, 114, 97):
                        val = {115: str, 114: repr, 97: ascii}[v.conversion](val)
                    spec = ev(v.format_spec) if v.format_spec is not None else ""
                    try:
                        out.append(format(val, spec))
                    except Exception as e:
                        raise Unknown("f-string format failed: %s" % e)
                else:
                    raise Unknown("f-string")
            return "".join(out)
        if isinstance(node, ast.BinOp):
            l, r = ev(node.left), ev(node.right)
            try:
                import operator as _opr
                _OPS = {ast.Add: _opr.add, ast.Mod: _opr.mod, ast.Sub: _opr.sub, ast.Mult: _opr.mul, ast.BitOr: _opr.or_, ast.BitAnd: _opr.and_, ast.BitXor: _opr.xor,
                        ast.LShift: _opr.lshift, ast.RShift: _opr.rshift, ast.FloorDiv: _opr.floordiv, ast.Div: _opr.truediv, ast.Pow: _opr.pow}
                fn_ = _OPS.get(type(node.op))
                if fn_ is not None:
                    return fn_(l, r)
            except Exception as e:
                raise Unknown("binop failed: %s" % e)
            raise Unknown("binop")
        if isinstance(node, ast.UnaryOp):
            v = ev(node.operand)
            if isinstance(node.op, ast.Not):
                return not v
            if isinstance(node.op, ast.USub):
                return -v
            raise Unknown("unaryop")
        if isinstance(node, ast.Compare) and len(node.ops) == 1:
            l, r = ev(node.left), ev(node.comparators[0])
            op = node.ops[0]
            if isinstance(op, ast.Eq):
                return l == r
            if isinstance(op, ast.NotEq):
                return l != r
            if isinstance(op, ast.In):
                return l in r
            if isinstance(op, ast.NotIn):
                return l not in r
            if isinstance(op, ast.Is):
                return l is r
            if isinstance(op, ast.IsNot):
                return l is not r
            try:
                if isinstance(op, ast.Lt):
                    return l < r
                if isinstance(op, ast.LtE):
                    return l <= r
                if isinstance(op, ast.Gt):
                    return l > r
                if isinstance(op, ast.GtE):
                    return l >= r
            except TypeError as e:
                raise Unknown("compare failed: %s" % e)
            raise Unknown("compare")
        if isinstance(node, ast.Compare):
            left = ev(node.left)
            for op, right in zip(node.ops, node.comparators):
                r = ev(right)
                sub = ast.Compare(left=ast.Constant(left), ops=[op], comparators=[ast.Constant(r)])
                if not self.ceval(module, sub, env):
                    return False
                left = r
            return True
        if isinstance(node, ast.BoolOp):
            if isinstance(node.op, ast.And):
                v = True
                for x in node.values:
                    v = ev(x)
                    if not v:
                        return v
                return v
            v = False
            for x in node.values:
                v = ev(x)
                if v:
                    return v
            return v
        if isinstance(node, ast.Subscript):
            v = ev(node.value)
            if isinstance(node.slice, ast.Slice):
                lo = ev(node.slice.lower) if node.slice.lower else None
                hi = ev(node.slice.upper) if node.slice.upper else None
                return v[lo:hi]
            try:
                return v[ev(node.slice)]
            except Exception as e:
                raise Unknown("subscript failed: %s" % e)
        if isinstance(node, ast.Attribute):
            dn = self.dotted(module, node)
            if dn and dn.startswith("re.") and dn[3:] in RE_FLAGS:
                return RE_FLAGS[dn[3:]]
            if dn is None and node.attr in ("start", "stop", "step"):
                base = ev(node.value)
                if isinstance(base, range):
                    return getattr(base, node.attr)
            raise Unknown("attribute %s" % ast.dump(node)[:60])
        if isinstance(node, (ast.ListComp, ast.SetComp, ast.DictComp, ast.GeneratorExp)):
            return self._comp(module, node, env)
        if isinstance(node, ast.IfExp):
            return ev(node.body) if ev(node.test) else ev(node.orelse)
        if isinstance(node, ast.Call):
            return self._call(module, node, env)
        raise Unknown("unsupported node %s" % type(node).__name__)

    def _comp(self, module, node, env):
        results = []

        def rec(i, env):
            if i == len(node.generators):
                if isinstance(node, ast.DictComp):
                    results.append((self.ceval(module, node.key, env), self.ceval(module, node.value, env)))
                else:
                    results.append(self.ceval(module, node.elt, env))
                return
            g = node.generators[i]
            it = self.ceval(module, g.iter, env)
            if not isinstance(it, (list, tuple, str, bytes, dict, set, frozenset, range)):
                raise Unknown("iteration over a %s" % type(it).__name__)
            for x in it:
                e2 = dict(env)
                self._bind_target(g.target, x, e2)
                if all(self.ceval(module, c, e2) for c in g.ifs):
                    rec(i + 1, e2)

        rec(0, env)
        if isinstance(node, ast.DictComp):
            return dict(results)
        if isinstance(node, ast.SetComp):
            return set(results)
        return results

    def _bind_target(self, tgt, val, env):
        if isinstance(tgt, ast.Name):
            env[tgt.id] = val
        elif isinstance(tgt, (ast.Tuple, ast.List)):
            vals = list(val)
            if len(vals) != len(tgt.elts):
                raise Unknown("unpack")
            for t, v in zip(tgt.elts, vals):
                self._bind_target(t, v, env)
        else:
            raise Unknown("target")

    def _call(self, module, node, env):
        ev = lambda n: self.ceval(module, n, env)
        f = node.func
        # method calls on constants
        if isinstance(f, ast.Attribute):
            dn = self.dotted(module, f)
            if dn == "re.compile":
                pat = ev(node.args[0])
                flags = 0
                if len(node.args) > 1:
                    flags = ev(node.args[1])
                for kw in node.keywords:
                    if kw.arg == "flags":
                        flags = ev(kw.value)
                if isinstance(pat, Regex):
                    pat = pat.pattern
                if not isinstance(pat, (str, bytes)):
                    raise Unknown("re.compile of non-string")
                return Regex(pat, int(flags), node, module)
            if dn == "bytes.fromhex" or (
                isinstance(f.value, ast.Name) and f.value.id == "bytes" and f.attr == "fromhex"
            ):
                return bytes.fromhex(ev(node.args[0]))
            if dn is None:
                base = ev(f.value)
                args = [ev(a) for a in node.args]
                if isinstance(base, (str, bytes)) and f.attr in (
                    "encode", "decode", "lower", "upper", "strip", "rstrip", "lstrip",
                    "join", "split", "replace", "format",
                ):
                    kws = {}
                    for kw in node.keywords:
                        if kw.arg is None:
                            raise Unknown("method **kwargs")
                        kws[kw.arg] = ev(kw.value)
                    try:
                        return getattr(base, f.attr)(*args, **kws)
                    except Exception as e:
                        raise Unknown("method failed: %s" % e)
                if isinstance(base, dict) and f.attr in ("keys", "values", "items", "copy"):
                    return list(getattr(base, f.attr)()) if f.attr != "copy" else dict(base)
                raise Unknown("method call %s" % f.attr)
            if dn == "itertools.chain":
                out = []
                for a in node.args:
                    out.extend(list(ev(a)))
                return out
            raise Unknown("call to %s" % dn)
        if isinstance(f, ast.Name):
            if f.id in env:
                raise Unknown("call of local")
            ref = self.resolve(module, f.id)
            if ref is not None and ref.qualname == "itertools.chain":
                out = []
                for a in node.args:
                    out.extend(list(ev(a)))
                return out
            if ref is not None and ref.qualname == "functools.partial":
                target = node.args[0]
                tref = None
                if isinstance(target, ast.Name):
                    tref = self.resolve(module, target.id)
                if tref is None:
                    raise Unknown("partial target")
                kwargs = {}
                for kw in node.keywords:
                    if kw.arg is None:
                        raise Unknown("partial **kwargs")
                    kwargs[kw.arg] = ev(kw.value)
                return Partial(tref, [ev(a) for a in node.args[1:]], kwargs, module)
            if ref is None and f.id == "object" and not node.args and not node.keywords:
                return Sentinel("%s:%d" % (module.name, node.lineno))
            if ref is None and f.id in PURE_BUILTINS:
                args = [ev(a) for a in node.args]
                if node.keywords:
                    raise Unknown("builtin kwargs")
                try:
                    return PURE_BUILTINS[f.id](*args)
                except Exception as e:
                    raise Unknown("builtin failed: %s" % e)
            if ref is not None and ref.qualname == "collections.namedtuple":
                return ("namedtuple", ev(node.args[0]), tuple(ev(node.args[1])))
            raise Unknown("call to %s" % f.id)
        raise Unknown("call")


# ----------------------------------------------------------------------
# small AST helpers used by all rules
# ----------------------------------------------------------------------
def unparse(node):
    try:
        return ast.unparse(node)
    except Exception:
        return "<%s>" % type(node).__name__


def walk_no_nested(node):
    """ast.walk that does not descend into nested function/class definitions or lambdas."""
    stack = [node]
    first = True
    while stack:
        n = stack.pop()
        if not first and isinstance(n, (ast.FunctionDef, ast.AsyncFunctionDef, ast.ClassDef)):
            continue
        first = False
        yield n
        stack.extend(reversed(list(ast.iter_child_nodes(n))))


def calls_in(node):
    for n in walk_no_nested(node):
        if isinstance(n, ast.Call):
            yield n


def func_params(fn):
    a = fn.args
    names = [x.arg for x in a.posonlyargs + a.args]
    defaults = {}
    pos = a.posonlyargs + a.args
    for arg, d in zip(pos[len(pos) - len(a.defaults):], a.defaults):
        defaults[arg.arg] = d
    for arg, d in zip(a.kwonlyargs, a.kw_defaults):
        names.append(arg.arg)
        if d is not None:
            defaults[arg.arg] = d
    return names, defaults
